//! sqfacts — E0 fact extractor for the squitterator verification framework.
//!
//! A `rustc_private` driver, injected through RUSTC_WORKSPACE_WRAPPER under
//! `cargo +nightly check`.  For the crate named by SQFACTS_CRATE it writes one
//! JSON fact file per compilation unit into SQFACTS_OUT:
//!   * every MIR body (fns, assoc fns, closures, promoteds) with resolved callees,
//!     structured places (field names + owner ADT), constants, assert kinds, spans;
//!   * ADT layouts, statics, impl table, closure captures;
//!   * every `format_args!` site of the expanded AST as a structured template.
//! One write per process; nothing else is touched.
#![feature(rustc_private)]
#![allow(clippy::all)]

extern crate rustc_abi;
extern crate rustc_ast;
extern crate rustc_driver;
extern crate rustc_hir;
extern crate rustc_index;
extern crate rustc_interface;
extern crate rustc_middle;
extern crate rustc_span;

mod json;
use json::J;

use rustc_driver::Compilation;
use rustc_hir::def::DefKind;
use rustc_hir::def_id::{DefId, LOCAL_CRATE};
use rustc_interface::interface::Compiler;
use rustc_middle::mir::{
    self, AggregateKind, AssertKind, BasicBlock, Body, Const, Operand, Place, PlaceElem, Rvalue,
    StatementKind, TerminatorKind, UnwindAction,
};
use rustc_middle::ty::TypeVisitableExt;
use rustc_middle::ty::print::with_no_trimmed_paths;
use rustc_middle::ty::{self, Ty, TyCtxt};
use rustc_span::Span;

struct Cb {
    fmt_sites: Vec<J>,
    want: String,
    out: String,
}

fn main() {
    let mut args: Vec<String> = std::env::args().collect();
    // RUSTC_WORKSPACE_WRAPPER passes the real rustc path as argv[1]
    if args.len() > 1 && (args[1].ends_with("rustc") || args[1].contains("/rustc")) {
        args.remove(1);
    }
    let want = std::env::var("SQFACTS_CRATE").unwrap_or_else(|_| "squitterator".to_string());
    let out = std::env::var("SQFACTS_OUT").unwrap_or_default();
    let mut cb = Cb { fmt_sites: Vec::new(), want, out };
    rustc_driver::run_compiler(&args, &mut cb);
}

impl rustc_driver::Callbacks for Cb {
    fn after_expansion<'tcx>(&mut self, _c: &Compiler, tcx: TyCtxt<'tcx>) -> Compilation {
        if self.out.is_empty() || tcx.crate_name(LOCAL_CRATE).as_str() != self.want {
            return Compilation::Continue;
        }
        let r = tcx.resolver_for_lowering().borrow();
        let krate = &r.1;
        let mut v = FmtVisitor { tcx, sites: Vec::new() };
        rustc_ast::visit::walk_crate(&mut v, krate);
        self.fmt_sites = v.sites;
        Compilation::Continue
    }

    fn after_analysis<'tcx>(&mut self, _c: &Compiler, tcx: TyCtxt<'tcx>) -> Compilation {
        if self.out.is_empty() || tcx.crate_name(LOCAL_CRATE).as_str() != self.want {
            return Compilation::Continue;
        }
        let facts = dump_crate(tcx, std::mem::take(&mut self.fmt_sites));
        let mut s = String::with_capacity(1 << 24);
        facts.write(&mut s);
        let kind = if tcx.entry_fn(()).is_some() { "bin" } else { "lib" };
        let path = format!("{}/facts-{}-{}.json", self.out, self.want, kind);
        let tmp = format!("{}.tmp{}", path, std::process::id());
        std::fs::write(&tmp, s).expect("sqfacts: cannot write fact file");
        std::fs::rename(&tmp, &path).expect("sqfacts: cannot rename fact file");
        Compilation::Continue
    }
}

// ---------------------------------------------------------------------------
// spans

fn loc(tcx: TyCtxt<'_>, sp: Span) -> J {
    if sp.is_dummy() {
        return J::Null;
    }
    let sm = tcx.sess.source_map();
    let lo = sm.lookup_char_pos(sp.lo());
    let hi = sm.lookup_char_pos(sp.hi());
    let file = match &lo.file.name {
        rustc_span::FileName::Real(r) => match r.local_path() {
            Some(p) => p.to_string_lossy().to_string(),
            None => format!("{:?}", r),
        },
        other => format!("{:?}", other),
    };
    J::obj()
        .set("file", J::s(file))
        .set("line", J::Int(lo.line as i128))
        .set("col", J::Int(lo.col.0 as i128 + 1))
        .set("hi_line", J::Int(hi.line as i128))
        .set("hi_col", J::Int(hi.col.0 as i128 + 1))
}

/// span + expansion chain (innermost macro first) + outermost call site
fn span_json(tcx: TyCtxt<'_>, sp: Span) -> J {
    span_json2(tcx, sp, true)
}

fn span_json2(tcx: TyCtxt<'_>, sp: Span, defpath: bool) -> J {
    let mut j = loc(tcx, sp);
    if let J::Null = j {
        return j;
    }
    if sp.from_expansion() {
        let mut chain = Vec::new();
        let mut cur = sp;
        let mut guard = 0;
        while cur.from_expansion() && guard < 32 {
            let data = cur.ctxt().outer_expn_data();
            let name = match (defpath, data.macro_def_id) {
                (true, Some(d)) => with_no_trimmed_paths!(tcx.def_path_str(d)),
                _ => match data.kind {
                    rustc_span::ExpnKind::Macro(_, name) => name.as_str().to_string(),
                    ref k => format!("{}", k.descr()),
                },
            };
            chain.push(J::s(name));
            cur = data.call_site;
            guard += 1;
        }
        j.put("expn", J::Arr(chain));
        j.put("callsite", loc(tcx, cur));
    }
    j
}

// ---------------------------------------------------------------------------
// AST: format_args sites

struct FmtVisitor<'tcx> {
    tcx: TyCtxt<'tcx>,
    sites: Vec<J>,
}

fn pos_json(p: &rustc_ast::FormatArgPosition) -> J {
    match p.index {
        Ok(i) => J::Int(i as i128),
        Err(_) => J::Null,
    }
}

fn count_json(c: &Option<rustc_ast::FormatCount>) -> J {
    match c {
        None => J::Null,
        Some(rustc_ast::FormatCount::Literal(n)) => J::Int(*n as i128),
        Some(rustc_ast::FormatCount::Argument(p)) => J::obj().set("arg", pos_json(p)),
    }
}

impl<'ast, 'tcx> rustc_ast::visit::Visitor<'ast> for FmtVisitor<'tcx> {
    fn visit_expr(&mut self, e: &'ast rustc_ast::Expr) {
        if let rustc_ast::ExprKind::FormatArgs(fa) = &e.kind {
            let mut pieces = Vec::new();
            for p in fa.template.iter() {
                match p {
                    rustc_ast::FormatArgsPiece::Literal(sym) => {
                        pieces.push(J::obj().set("lit", J::s(sym.as_str())));
                    }
                    rustc_ast::FormatArgsPiece::Placeholder(ph) => {
                        let o = &ph.format_options;
                        let align = match o.alignment {
                            None => J::Null,
                            Some(rustc_ast::FormatAlignment::Left) => J::s("<"),
                            Some(rustc_ast::FormatAlignment::Right) => J::s(">"),
                            Some(rustc_ast::FormatAlignment::Center) => J::s("^"),
                        };
                        pieces.push(
                            J::obj()
                                .set("arg", pos_json(&ph.argument))
                                .set("trait", J::s(format!("{:?}", ph.format_trait)))
                                .set("width", count_json(&o.width))
                                .set("prec", count_json(&o.precision))
                                .set("align", align)
                                .set("zero", J::Bool(o.zero_pad))
                                .set(
                                    "fill",
                                    match o.fill {
                                        Some(c) => J::s(c.to_string()),
                                        None => J::Null,
                                    },
                                )
                                .set("alt", J::Bool(o.alternate)),
                        );
                    }
                }
            }
            let sm = self.tcx.sess.source_map();
            let mut args = Vec::new();
            for a in fa.arguments.all_args() {
                let snip = sm.span_to_snippet(a.expr.span).unwrap_or_default();
                let lit = match &a.expr.kind {
                    rustc_ast::ExprKind::Lit(l) => J::s(l.symbol.as_str()),
                    _ => J::Null,
                };
                args.push(
                    J::obj()
                        .set("span", span_json2(self.tcx, a.expr.span, false))
                        .set("snippet", J::s(snip))
                        .set("lit", lit),
                );
            }
            self.sites.push(
                J::obj()
                    .set("span", span_json2(self.tcx, e.span, false))
                    .set("pieces", J::Arr(pieces))
                    .set("args", J::Arr(args)),
            );
        }
        rustc_ast::visit::walk_expr(self, e);
    }
}

// ---------------------------------------------------------------------------
// types

fn ty_str<'tcx>(ty: Ty<'tcx>) -> String {
    with_no_trimmed_paths!(format!("{}", ty))
}

fn path_str(tcx: TyCtxt<'_>, d: DefId) -> String {
    with_no_trimmed_paths!(tcx.def_path_str(d))
}

fn ty_json<'tcx>(tcx: TyCtxt<'tcx>, ty: Ty<'tcx>, depth: u32) -> J {
    let s = ty_str(ty);
    if depth > 5 {
        return J::obj().set("k", J::s("deep")).set("s", J::s(s));
    }
    let d = depth + 1;
    match ty.kind() {
        ty::Bool | ty::Char | ty::Int(_) | ty::Uint(_) | ty::Float(_) => {
            J::obj().set("k", J::s("prim")).set("s", J::s(s))
        }
        ty::Str => J::obj().set("k", J::s("str")).set("s", J::s(s)),
        ty::Never => J::obj().set("k", J::s("never")).set("s", J::s(s)),
        ty::Adt(def, args) => {
            let targs: Vec<J> = args.types().map(|t| ty_json(tcx, t, d)).collect();
            J::obj()
                .set("k", J::s("adt"))
                .set("path", J::s(path_str(tcx, def.did())))
                .set("args", J::Arr(targs))
                .set("s", J::s(s))
        }
        ty::Ref(_, t, m) => J::obj()
            .set("k", J::s("ref"))
            .set("mut", J::Bool(m.is_mut()))
            .set("to", ty_json(tcx, *t, d))
            .set("s", J::s(s)),
        ty::RawPtr(t, m) => J::obj()
            .set("k", J::s("ptr"))
            .set("mut", J::Bool(m.is_mut()))
            .set("to", ty_json(tcx, *t, d))
            .set("s", J::s(s)),
        ty::Slice(t) => J::obj()
            .set("k", J::s("slice"))
            .set("of", ty_json(tcx, *t, d))
            .set("s", J::s(s)),
        ty::Array(t, len) => J::obj()
            .set("k", J::s("array"))
            .set("of", ty_json(tcx, *t, d))
            .set(
                "len",
                match len.try_to_target_usize(tcx) {
                    Some(n) => J::Int(n as i128),
                    None => J::Null,
                },
            )
            .set("s", J::s(s)),
        ty::Tuple(ts) => J::obj()
            .set("k", J::s("tuple"))
            .set("of", J::Arr(ts.iter().map(|t| ty_json(tcx, t, d)).collect()))
            .set("s", J::s(s)),
        ty::Closure(def, args) => {
            let up: Vec<J> = args
                .as_closure()
                .upvar_tys()
                .iter()
                .map(|t| ty_json(tcx, t, d))
                .collect();
            J::obj()
                .set("k", J::s("closure"))
                .set("path", J::s(path_str(tcx, *def)))
                .set("upvars", J::Arr(up))
                .set("s", J::s(s))
        }
        ty::FnDef(def, args) => J::obj()
            .set("k", J::s("fndef"))
            .set("path", J::s(path_str(tcx, *def)))
            .set(
                "args",
                J::Arr(args.iter().map(|a| J::s(with_no_trimmed_paths!(format!("{}", a)))).collect()),
            )
            .set("s", J::s(s)),
        ty::FnPtr(..) => J::obj().set("k", J::s("fnptr")).set("s", J::s(s)),
        ty::Param(p) => J::obj()
            .set("k", J::s("param"))
            .set("name", J::s(p.name.as_str()))
            .set("s", J::s(s)),
        ty::Dynamic(..) => J::obj().set("k", J::s("dyn")).set("s", J::s(s)),
        _ => J::obj().set("k", J::s("other")).set("s", J::s(s)),
    }
}

// ---------------------------------------------------------------------------
// MIR

struct Cx<'a, 'tcx> {
    tcx: TyCtxt<'tcx>,
    body: &'a Body<'tcx>,
    env: ty::TypingEnv<'tcx>,
    owner: DefId,
}

impl<'a, 'tcx> Cx<'a, 'tcx> {
    fn place(&self, p: &Place<'tcx>) -> J {
        let tcx = self.tcx;
        let mut pty = mir::PlaceTy::from_ty(self.body.local_decls[p.local].ty);
        let mut proj = Vec::new();
        for elem in p.projection.iter() {
            let j = match elem {
                PlaceElem::Deref => J::obj().set("k", J::s("deref")),
                PlaceElem::Field(f, fty) => {
                    let mut o = J::obj().set("k", J::s("field")).set("i", J::Int(f.index() as i128));
                    match pty.ty.kind() {
                        ty::Adt(def, _) => {
                            let v = pty.variant_index.unwrap_or(rustc_abi::FIRST_VARIANT);
                            let vd = def.variant(v);
                            o.put("name", J::s(vd.fields[f].name.as_str()));
                            o.put("adt", J::s(path_str(tcx, def.did())));
                            o.put("variant", J::s(vd.name.as_str()));
                        }
                        ty::Closure(def, _) => {
                            o.put("closure", J::s(path_str(tcx, *def)));
                        }
                        _ => {}
                    }
                    o.put("ty", J::s(ty_str(fty)));
                    o
                }
                PlaceElem::Index(l) => {
                    J::obj().set("k", J::s("index")).set("local", J::Int(l.index() as i128))
                }
                PlaceElem::ConstantIndex { offset, min_length, from_end } => J::obj()
                    .set("k", J::s("cindex"))
                    .set("offset", J::Int(offset as i128))
                    .set("min_length", J::Int(min_length as i128))
                    .set("from_end", J::Bool(from_end)),
                PlaceElem::Subslice { from, to, from_end } => J::obj()
                    .set("k", J::s("subslice"))
                    .set("from", J::Int(from as i128))
                    .set("to", J::Int(to as i128))
                    .set("from_end", J::Bool(from_end)),
                PlaceElem::Downcast(name, vidx) => J::obj()
                    .set("k", J::s("downcast"))
                    .set(
                        "variant",
                        match name {
                            Some(n) => J::s(n.as_str()),
                            None => J::Null,
                        },
                    )
                    .set("idx", J::Int(vidx.index() as i128)),
                other => J::obj().set("k", J::s("other")).set("s", J::s(format!("{:?}", other))),
            };
            proj.push(j);
            pty = pty.projection_ty(tcx, elem);
        }
        J::obj().set("local", J::Int(p.local.index() as i128)).set("proj", J::Arr(proj))
    }

    fn konst(&self, c: &Const<'tcx>) -> J {
        let tcx = self.tcx;
        let ty = c.ty();
        let mut o = J::obj().set("ty", J::s(ty_str(ty)));
        if let ty::FnDef(def, args) = ty.kind() {
            o.put("fn", J::s(path_str(tcx, *def)));
            o.put(
                "generic_args",
                J::Arr(args.iter().map(|a| J::s(with_no_trimmed_paths!(format!("{}", a)))).collect()),
            );
            if let Ok(Some(inst)) = ty::Instance::try_resolve(tcx, self.env, *def, args) {
                o.put("instance", J::s(path_str(tcx, inst.def_id())));
            }
            return o;
        }
        if let Const::Unevaluated(uv, _) = c {
            if let Some(p) = uv.promoted {
                o.put("promoted", J::Int(p.index() as i128));
                o.put("def", J::s(path_str(tcx, uv.def)));
                return o;
            }
        }
        if ty.is_integral() || ty.is_bool() || ty.is_char() || ty.is_floating_point() {
            if let Some(si) = c.try_eval_scalar_int(tcx, self.env) {
                let size = si.size();
                if ty.is_signed() {
                    o.put("int", J::s(format!("{}", si.to_int(size))));
                } else if ty.is_floating_point() {
                    o.put("float_bits", J::s(format!("{}", si.to_uint(size))));
                    o.put("float_size", J::Int(size.bytes() as i128));
                } else {
                    o.put("int", J::s(format!("{}", si.to_uint(size))));
                }
                return o;
            }
        }
        // arrays of integers (named consts / statics used as lookup tables): evaluate and dump the elements
        {
            let (arr_ty, is_ref) = match ty.kind() {
                ty::Ref(_, t, _) => (*t, true),
                _ => (ty, false),
            };
            let elem_len: Option<(Ty<'tcx>, Option<u64>)> = match arr_ty.kind() {
                ty::Array(e, n) => Some((*e, n.try_to_target_usize(tcx))),
                ty::Slice(e) if is_ref => Some((*e, None)),
                _ => None,
            };
            if let Some((ety, n)) = elem_len {
                if (ety.is_integral() || ety.is_bool() || ety.is_char()) && !c.has_non_region_param() {
                    if let Ok(cv) = c.eval(tcx, self.env, rustc_span::DUMMY_SP) {
                        if let Some(vals) = self.read_int_array(cv, ety, n, is_ref) {
                            o.put("elem_ty", J::s(ty_str(ety)));
                            o.put("is_ref", J::Bool(is_ref));
                            o.put("array", J::Arr(vals));
                            return o;
                        }
                    }
                } else if !c.has_non_region_param() {
                    // tables of tuples / nested arrays / string slices: a structured dump
                    if let Ok(cv) = c.eval(tcx, self.env, rustc_span::DUMMY_SP) {
                        if let Some(v) = self.read_structured(cv, arr_ty, n, is_ref) {
                            o.put("is_ref", J::Bool(is_ref));
                            o.put("value", v);
                            return o;
                        }
                    }
                }
            }
        }
        // enum constants (`Some(false)`, `Ordering::Less`, a crate enum variant) by value or behind a reference
        {
            let (inner, is_ref) = match ty.kind() {
                ty::Ref(_, t, _) => (*t, true),
                _ => (ty, false),
            };
            let is_enum = matches!(inner.kind(), ty::Adt(a, _) if a.is_enum());
            if is_enum && !c.has_non_region_param() {
                if let Ok(cv) = c.eval(tcx, self.env, rustc_span::DUMMY_SP) {
                    let pointee = if !is_ref {
                        Some(cv)
                    } else {
                        match cv {
                            mir::ConstValue::Scalar(mir::interpret::Scalar::Ptr(ptr, _)) => {
                                let (prov, off) = ptr.into_raw_parts();
                                Some(mir::ConstValue::Indirect { alloc_id: prov.alloc_id(), offset: off })
                            }
                            mir::ConstValue::Indirect { alloc_id, offset } => self
                                .deref_stored_ref(alloc_id, offset.bytes() as usize, Some(1))
                                .map(|(aid, off, _)| mir::ConstValue::Indirect { alloc_id: aid, offset: rustc_abi::Size::from_bytes(off as u64) }),
                            _ => None,
                        }
                    };
                    if let Some(pv) = pointee {
                        if let Some(v) = self.enum_value(pv, inner, 0) {
                            o.put("is_ref", J::Bool(is_ref));
                            o.put("value", v);
                            return o;
                        }
                    }
                }
            }
        }
        // by-value tuples (`const UNIDENTIFIED: (u32, u32) = (0, 0)`) and references to tuples / structs
        {
            let (inner, is_ref) = match ty.kind() {
                ty::Ref(_, t, _) => (*t, true),
                _ => (ty, false),
            };
            let is_tuple = matches!(inner.kind(), ty::Tuple(ts) if !ts.is_empty());
            let is_struct = matches!(inner.kind(), ty::Adt(a, _) if a.is_struct());
            if (is_tuple || (is_ref && is_struct)) && !c.has_non_region_param() {
                if let Ok(cv) = c.eval(tcx, self.env, rustc_span::DUMMY_SP) {
                    let v = match cv {
                        mir::ConstValue::Indirect { alloc_id, offset } if !is_ref => {
                            self.alloc_of(alloc_id).and_then(|a| self.read_value(a, offset.bytes() as usize, inner, 0))
                        }
                        mir::ConstValue::Scalar(mir::interpret::Scalar::Ptr(ptr, _)) if is_ref => {
                            let (prov, off) = ptr.into_raw_parts();
                            self.alloc_of(prov.alloc_id()).and_then(|a| self.read_value(a, off.bytes() as usize, inner, 0))
                        }
                        mir::ConstValue::Indirect { alloc_id, offset } if is_ref => {
                            self.deref_stored_ref(alloc_id, offset.bytes() as usize, Some(1))
                                .and_then(|(aid, off, _)| self.alloc_of(aid).and_then(|a| self.read_value(a, off, inner, 0)))
                        }
                        _ => None,
                    };
                    if let Some(v) = v {
                        o.put("is_ref", J::Bool(is_ref));
                        o.put("value", v);
                        return o;
                    }
                }
            }
        }
        if let ty::Adt(adt, _) = ty.kind() {
            if adt.is_struct() && !c.has_non_region_param() {
                match c.eval(tcx, self.env, rustc_span::DUMMY_SP) {
                    Ok(cv) => {
                        if let Some(v) = self.read_struct_const(cv, ty) {
                            o.put("value", v);
                            return o;
                        }
                        o.put("dbg", J::s(format!("{:?}", cv)));
                    }
                    Err(_) => {
                        o.put("dbg", J::s("eval error"));
                    }
                }
            }
        }
        if let Const::Val(cv, _) = c {
            if let mir::ConstValue::Slice { .. } = cv {
                let is_str = matches!(ty.kind(), ty::Ref(_, t, _) if t.is_str());
                if is_str {
                    if let Some(bytes) = cv.try_get_slice_bytes_for_diagnostics(tcx) {
                        o.put("str", J::s(String::from_utf8_lossy(bytes).to_string()));
                        return o;
                    }
                }
            }
            if let mir::ConstValue::ZeroSized = cv {
                o.put("zst", J::Bool(true));
                return o;
            }
        }
        o.put("opaque", J::s(with_no_trimmed_paths!(format!("{}", c))));
        o
    }

    /// structured constant (arrays / tuples of integers, bools, chars and &str), decoded from its allocation by layout
    fn read_structured(&self, cv: mir::ConstValue, arr_ty: Ty<'tcx>, n: Option<u64>, is_ref: bool) -> Option<J> {
        let tcx = self.tcx;
        let (alloc_id, offset, count): (mir::interpret::AllocId, usize, Option<u64>) = match cv {
            mir::ConstValue::Indirect { alloc_id, offset } if !is_ref => (alloc_id, offset.bytes() as usize, n),
            mir::ConstValue::Indirect { alloc_id, offset } if is_ref => self.deref_stored_ref(alloc_id, offset.bytes() as usize, n)?,
            mir::ConstValue::Slice { alloc_id, meta } if is_ref => (alloc_id, 0, Some(meta)),
            mir::ConstValue::Scalar(mir::interpret::Scalar::Ptr(ptr, _)) if is_ref => {
                let (prov, off) = ptr.into_raw_parts();
                (prov.alloc_id(), off.bytes() as usize, n)
            }
            _ => return None,
        };
        let alloc = self.alloc_of(alloc_id)?;
        let ety = match arr_ty.kind() {
            ty::Array(e, _) => *e,
            ty::Slice(e) => *e,
            _ => return None,
        };
        let count = count? as usize;
        if count > 8192 {
            return None;
        }
        let esize = tcx.layout_of(self.env.as_query_input(ety)).ok()?.size.bytes() as usize;
        let mut out = Vec::with_capacity(count);
        for i in 0..count {
            out.push(self.read_value(alloc, offset + i * esize, ety, 0)?);
        }
        Some(J::obj().set("arr", J::Arr(out)))
    }

    /// a by-value struct constant (Indirect allocation, or a scalar / scalar pair packed into an allocation-less value)
    fn read_struct_const(&self, cv: mir::ConstValue, t: Ty<'tcx>) -> Option<J> {
        match cv {
            mir::ConstValue::Indirect { alloc_id, offset } => {
                let alloc = self.alloc_of(alloc_id)?;
                self.read_value(alloc, offset.bytes() as usize, t, 0)
            }
            _ => None,
        }
    }

    /// an enum constant: {"enum": path, "variant": name, "fields": [values]} (fields: integers / bools / chars / nested enums and tuples)
    fn enum_value(&self, cv: mir::ConstValue, t: Ty<'tcx>, depth: usize) -> Option<J> {
        let tcx = self.tcx;
        if depth > 3 {
            return None;
        }
        if t.is_integral() || t.is_bool() || t.is_char() {
            if let mir::ConstValue::Scalar(mir::interpret::Scalar::Int(si)) = cv {
                let size = si.size();
                let s = if t.is_signed() { format!("{}", si.to_int(size)) } else { format!("{}", si.to_uint(size)) };
                return Some(J::obj().set("int", J::s(s)).set("ty", J::s(ty_str(t))));
            }
            return None;
        }
        match t.kind() {
            ty::Adt(def, _) if def.is_enum() => {
                let d = tcx.try_destructure_mir_constant_for_user_output(cv, t)?;
                let vi = d.variant?;
                let vdef = def.variant(vi);
                let mut fields = Vec::new();
                for (fv, fty) in d.fields.iter() {
                    fields.push(self.enum_value(*fv, *fty, depth + 1)?);
                }
                Some(
                    J::obj()
                        .set("enum", J::s(with_no_trimmed_paths!(tcx.def_path_str(def.did()))))
                        .set("variant", J::s(vdef.name.as_str()))
                        .set("fields", J::Arr(fields)),
                )
            }
            ty::Tuple(ts) if !ts.is_empty() => {
                let d = tcx.try_destructure_mir_constant_for_user_output(cv, t)?;
                let mut items = Vec::new();
                for (fv, fty) in d.fields.iter() {
                    items.push(self.enum_value(*fv, *fty, depth + 1)?);
                }
                Some(J::obj().set("tuple", J::Arr(items)))
            }
            _ => None,
        }
    }

    /// a reference held in memory (`&[T]` = pointer + length, `&[T; N]` = pointer): where it points and how many elements
    fn deref_stored_ref(&self, alloc_id: mir::interpret::AllocId, off: usize, n: Option<u64>) -> Option<(mir::interpret::AllocId, usize, Option<u64>)> {
        let tcx = self.tcx;
        let a = self.alloc_of(alloc_id)?;
        let inner = a.inner();
        let psize = tcx.data_layout.pointer_size().bytes() as usize;
        let want = if n.is_some() { psize } else { 2 * psize };
        if off + want > inner.len() {
            return None;
        }
        let prov = inner.provenance().get_ptr(rustc_abi::Size::from_bytes(off as u64))?;
        let bytes = inner.inspect_with_uninit_and_ptr_outside_interpreter(off..off + want);
        let mut addr: u64 = 0;
        let mut len: u64 = 0;
        for k in 0..psize {
            addr |= (bytes[k] as u64) << (8 * k);
            if n.is_none() {
                len |= (bytes[psize + k] as u64) << (8 * k);
            }
        }
        Some((prov.alloc_id(), addr as usize, Some(n.unwrap_or(len))))
    }

    fn alloc_of(&self, alloc_id: mir::interpret::AllocId) -> Option<mir::interpret::ConstAllocation<'tcx>> {
        let tcx = self.tcx;
        match tcx.global_alloc(alloc_id) {
            mir::interpret::GlobalAlloc::Memory(a) => Some(a),
            mir::interpret::GlobalAlloc::Static(def_id) => {
                if tcx.is_mutable_static(def_id) {
                    return None;
                }
                tcx.eval_static_initializer(def_id).ok()
            }
            _ => None,
        }
    }

    fn read_value(&self, alloc: mir::interpret::ConstAllocation<'tcx>, off: usize, t: Ty<'tcx>, depth: usize) -> Option<J> {
        let tcx = self.tcx;
        if depth > 4 {
            return None;
        }
        let layout = tcx.layout_of(self.env.as_query_input(t)).ok()?;
        let size = layout.size.bytes() as usize;
        let inner = alloc.inner();
        if off + size > inner.len() {
            return None;
        }
        if t.is_integral() || t.is_bool() || t.is_char() {
            let bytes = inner.inspect_with_uninit_and_ptr_outside_interpreter(off..off + size);
            let mut v: u128 = 0;
            for k in 0..size {
                v |= (bytes[k] as u128) << (8 * k);
            }
            let s = if t.is_signed() {
                let sh = 128 - 8 * size as u32;
                format!("{}", ((v << sh) as i128) >> sh)
            } else {
                format!("{}", v)
            };
            return Some(J::obj().set("int", J::s(s)).set("ty", J::s(ty_str(t))));
        }
        match t.kind() {
            ty::Pat(base, _) => self.read_value(alloc, off, *base, depth + 1),
            ty::Tuple(ts) => {
                let mut items = Vec::new();
                for (i, ft) in ts.iter().enumerate() {
                    let fo = layout.fields.offset(i).bytes() as usize;
                    items.push(self.read_value(alloc, off + fo, ft, depth + 1)?);
                }
                Some(J::obj().set("tuple", J::Arr(items)))
            }
            ty::Array(e, n) => {
                let n = n.try_to_target_usize(tcx)? as usize;
                if n > 8192 {
                    return None;
                }
                let es = tcx.layout_of(self.env.as_query_input(*e)).ok()?.size.bytes() as usize;
                let mut items = Vec::new();
                for i in 0..n {
                    items.push(self.read_value(alloc, off + i * es, *e, depth + 1)?);
                }
                Some(J::obj().set("arr", J::Arr(items)))
            }
            ty::Adt(adt, args) if adt.is_struct() => {
                let mut items = Vec::new();
                for (i, f) in adt.all_fields().enumerate() {
                    let fty = f.ty(tcx, args);
                    let fo = layout.fields.offset(i).bytes() as usize;
                    let v = self.read_value(alloc, off + fo, fty, depth + 1)?;
                    items.push(J::obj().set("name", J::s(f.name.as_str())).set("v", v));
                }
                Some(J::obj().set("struct", J::s(with_no_trimmed_paths!(tcx.def_path_str(adt.did())))).set("fields", J::Arr(items)))
            }
            ty::Ref(_, inner_ty, _) if matches!(inner_ty.kind(), ty::Slice(_) | ty::Array(..)) => {
                let (ety, n) = match inner_ty.kind() {
                    ty::Slice(e) => (*e, None),
                    ty::Array(e, n) => (*e, Some(n.try_to_target_usize(tcx)?)),
                    _ => return None,
                };
                let prov = inner.provenance().get_ptr(rustc_abi::Size::from_bytes(off as u64))?;
                let psize = tcx.data_layout.pointer_size().bytes() as usize;
                let want = if n.is_some() { psize } else { 2 * psize };
                let bytes = inner.inspect_with_uninit_and_ptr_outside_interpreter(off..off + want);
                let mut addr: u64 = 0;
                let mut len: u64 = 0;
                for k in 0..psize {
                    addr |= (bytes[k] as u64) << (8 * k);
                    if n.is_none() {
                        len |= (bytes[psize + k] as u64) << (8 * k);
                    }
                }
                let count = n.unwrap_or(len) as usize;
                if count > 8192 {
                    return None;
                }
                let target = self.alloc_of(prov.alloc_id())?;
                let es = tcx.layout_of(self.env.as_query_input(ety)).ok()?.size.bytes() as usize;
                let mut items = Vec::new();
                for i in 0..count {
                    items.push(self.read_value(target, addr as usize + i * es, ety, depth + 1)?);
                }
                Some(J::obj().set("ref_arr", J::Arr(items)))
            }
            ty::Ref(_, inner_ty, _) if inner_ty.is_str() => {
                // fat pointer: (data pointer with provenance, length)
                let psize = tcx.data_layout.pointer_size().bytes() as usize;
                let prov = inner.provenance().get_ptr(rustc_abi::Size::from_bytes(off as u64))?;
                let bytes = inner.inspect_with_uninit_and_ptr_outside_interpreter(off..off + 2 * psize);
                let mut addr: u64 = 0;
                let mut len: u64 = 0;
                for k in 0..psize {
                    addr |= (bytes[k] as u64) << (8 * k);
                    len |= (bytes[psize + k] as u64) << (8 * k);
                }
                let target = self.alloc_of(prov.alloc_id())?;
                let ti = target.inner();
                let (a, l) = (addr as usize, len as usize);
                if l > 4096 || a + l > ti.len() {
                    return None;
                }
                let sb = ti.inspect_with_uninit_and_ptr_outside_interpreter(a..a + l);
                Some(J::obj().set("str", J::s(String::from_utf8_lossy(sb).to_string())))
            }
            _ => None,
        }
    }

    /// elements of an integer array constant (by value: Indirect allocation; by reference: pointer to an allocation or static)
    fn read_int_array(&self, cv: mir::ConstValue, ety: Ty<'tcx>, n: Option<u64>, is_ref: bool) -> Option<Vec<J>> {
        let tcx = self.tcx;
        let esize = tcx.layout_of(self.env.as_query_input(ety)).ok()?.size.bytes() as usize;
        if esize == 0 || esize > 16 {
            return None;
        }
        let (alloc_id, offset, count): (mir::interpret::AllocId, usize, Option<u64>) = match cv {
            mir::ConstValue::Indirect { alloc_id, offset } if !is_ref => (alloc_id, offset.bytes() as usize, n),
            mir::ConstValue::Indirect { alloc_id, offset } if is_ref => self.deref_stored_ref(alloc_id, offset.bytes() as usize, n)?,
            mir::ConstValue::Slice { alloc_id, meta } if is_ref => (alloc_id, 0, Some(meta)),
            mir::ConstValue::Scalar(mir::interpret::Scalar::Ptr(ptr, _)) if is_ref => {
                let (prov, off) = ptr.into_raw_parts();
                (prov.alloc_id(), off.bytes() as usize, n)
            }
            _ => return None,
        };
        let count = count? as usize;
        if count > 65536 {
            return None;
        }
        let alloc = match tcx.global_alloc(alloc_id) {
            mir::interpret::GlobalAlloc::Memory(a) => a,
            mir::interpret::GlobalAlloc::Static(def_id) => {
                if tcx.is_mutable_static(def_id) {
                    return None;
                }
                tcx.eval_static_initializer(def_id).ok()?
            }
            _ => return None,
        };
        let inner = alloc.inner();
        let end = offset.checked_add(count.checked_mul(esize)?)?;
        if end > inner.len() {
            return None;
        }
        let bytes = inner.inspect_with_uninit_and_ptr_outside_interpreter(offset..end);
        let signed = ety.is_signed();
        let mut out = Vec::with_capacity(count);
        for i in 0..count {
            let mut v: u128 = 0;
            for k in 0..esize {
                v |= (bytes[i * esize + k] as u128) << (8 * k);
            }
            if signed {
                let sh = 128 - 8 * esize as u32;
                let sv = ((v << sh) as i128) >> sh;
                out.push(J::s(format!("{}", sv)));
            } else {
                out.push(J::s(format!("{}", v)));
            }
        }
        Some(out)
    }

    fn operand(&self, op: &Operand<'tcx>) -> J {
        match op {
            Operand::Copy(p) => J::obj().set("copy", self.place(p)),
            Operand::Move(p) => J::obj().set("move", self.place(p)),
            Operand::Constant(c) => J::obj().set("const", self.konst(&c.const_)),
            #[allow(unreachable_patterns)]
            other => J::obj().set("other", J::s(format!("{:?}", other))),
        }
    }

    fn rvalue(&self, rv: &Rvalue<'tcx>) -> J {
        let tcx = self.tcx;
        match rv {
            Rvalue::Use(op, ..) => J::obj().set("k", J::s("use")).set("x", self.operand(op)),
            Rvalue::Repeat(op, n) => J::obj()
                .set("k", J::s("repeat"))
                .set("x", self.operand(op))
                .set(
                    "n",
                    match n.try_to_target_usize(tcx) {
                        Some(n) => J::Int(n as i128),
                        None => J::Null,
                    },
                ),
            Rvalue::Ref(_, bk, p) => J::obj()
                .set("k", J::s("ref"))
                .set("mut", J::Bool(matches!(bk, mir::BorrowKind::Mut { .. })))
                .set("place", self.place(p)),
            Rvalue::RawPtr(kind, p) => J::obj()
                .set("k", J::s("rawptr"))
                .set("kind", J::s(format!("{:?}", kind)))
                .set("place", self.place(p)),
            Rvalue::Cast(kind, op, ty) => J::obj()
                .set("k", J::s("cast"))
                .set("kind", J::s(format!("{:?}", kind)))
                .set("x", self.operand(op))
                .set("to", ty_json(tcx, *ty, 0))
                .set("from", ty_json(tcx, op.ty(&self.body.local_decls, tcx), 0)),
            Rvalue::BinaryOp(op, lr) => J::obj()
                .set("k", J::s("bin"))
                .set("op", J::s(format!("{:?}", op)))
                .set("l", self.operand(&lr.0))
                .set("r", self.operand(&lr.1))
                .set("lty", J::s(ty_str(lr.0.ty(&self.body.local_decls, tcx))))
                .set("rty", J::s(ty_str(lr.1.ty(&self.body.local_decls, tcx)))),
            Rvalue::UnaryOp(op, x) => J::obj()
                .set("k", J::s("un"))
                .set("op", J::s(format!("{:?}", op)))
                .set("x", self.operand(x))
                .set("xty", J::s(ty_str(x.ty(&self.body.local_decls, tcx)))),
            Rvalue::Discriminant(p) => J::obj().set("k", J::s("discr")).set("place", self.place(p)),
            Rvalue::Aggregate(kind, ops) => {
                let mut o = J::obj().set("k", J::s("agg"));
                match &**kind {
                    AggregateKind::Array(t) => {
                        o.put("agg", J::s("array"));
                        o.put("elem", J::s(ty_str(*t)));
                    }
                    AggregateKind::Tuple => o.put("agg", J::s("tuple")),
                    AggregateKind::Adt(def, vidx, _, _, active) => {
                        o.put("agg", J::s("adt"));
                        let adt = tcx.adt_def(*def);
                        o.put("adt", J::s(path_str(tcx, *def)));
                        o.put("variant", J::s(adt.variant(*vidx).name.as_str()));
                        o.put("variant_idx", J::Int(vidx.index() as i128));
                        o.put(
                            "fields",
                            J::Arr(
                                adt.variant(*vidx)
                                    .fields
                                    .iter()
                                    .map(|f| J::s(f.name.as_str()))
                                    .collect(),
                            ),
                        );
                        if let Some(a) = active {
                            o.put("active_field", J::Int(a.index() as i128));
                        }
                    }
                    AggregateKind::Closure(def, _) => {
                        o.put("agg", J::s("closure"));
                        o.put("closure", J::s(path_str(tcx, *def)));
                    }
                    other => {
                        o.put("agg", J::s("other"));
                        o.put("s", J::s(format!("{:?}", other)));
                    }
                }
                o.put("ops", J::Arr(ops.iter().map(|x| self.operand(x)).collect()));
                o
            }
            Rvalue::CopyForDeref(p) => J::obj().set("k", J::s("copy_for_deref")).set("place", self.place(p)),
            other => J::obj().set("k", J::s("other")).set("s", J::s(format!("{:?}", other))),
        }
    }

    fn unwind(&self, u: &UnwindAction) -> J {
        match u {
            UnwindAction::Continue => J::s("continue"),
            UnwindAction::Unreachable => J::s("unreachable"),
            UnwindAction::Terminate(_) => J::s("terminate"),
            UnwindAction::Cleanup(bb) => J::Int(bb.index() as i128),
        }
    }

    fn bb(&self, b: BasicBlock) -> J {
        J::Int(b.index() as i128)
    }

    fn callee(&self, func: &Operand<'tcx>) -> J {
        let tcx = self.tcx;
        let fty = func.ty(&self.body.local_decls, tcx);
        let mut o = J::obj().set("ty", J::s(ty_str(fty)));
        if let ty::FnDef(cd, args) = fty.kind() {
            o.put("path", J::s(path_str(tcx, *cd)));
            o.put("name", J::s(tcx.item_name(*cd).as_str()));
            if let Some(tr) = tcx.trait_of_assoc(*cd) {
                o.put("trait", J::s(path_str(tcx, tr)));
            }
            if let Some(imp) = tcx.impl_of_assoc(*cd) {
                let self_ty = tcx.type_of(imp).instantiate_identity().skip_norm_wip();
                o.put("impl_self", J::s(ty_str(self_ty)));
            }
            o.put(
                "generic_args",
                J::Arr(args.iter().map(|a| J::s(with_no_trimmed_paths!(format!("{}", a)))).collect()),
            );
            let self_ty = args.types().next();
            if let Some(st) = self_ty {
                o.put("arg0_ty", ty_json(tcx, st, 0));
            }
            o.put("krate", J::s(tcx.crate_name(cd.krate).as_str()));
            match ty::Instance::try_resolve(tcx, self.env, *cd, args) {
                Ok(Some(inst)) => {
                    let id = inst.def_id();
                    o.put("instance", J::s(path_str(tcx, id)));
                    o.put("instance_kind", J::s(instance_kind(&inst)));
                    o.put("instance_krate", J::s(tcx.crate_name(id.krate).as_str()));
                    o.put("local", J::Bool(id.is_local() && matches!(inst.def, ty::InstanceKind::Item(_))));
                    o.put("is_closure", J::Bool(tcx.is_closure_like(id)));
                }
                _ => {
                    o.put("instance", J::Null);
                }
            }
        } else {
            o.put("path", J::Null);
        }
        o
    }

    fn assert_kind(&self, msg: &AssertKind<Operand<'tcx>>) -> (String, Vec<J>) {
        match msg {
            AssertKind::BoundsCheck { len, index } => {
                ("bounds".into(), vec![self.operand(len), self.operand(index)])
            }
            AssertKind::Overflow(op, l, r) => {
                (format!("overflow:{:?}", op), vec![self.operand(l), self.operand(r)])
            }
            AssertKind::OverflowNeg(x) => ("neg".into(), vec![self.operand(x)]),
            AssertKind::DivisionByZero(x) => ("div0".into(), vec![self.operand(x)]),
            AssertKind::RemainderByZero(x) => ("rem0".into(), vec![self.operand(x)]),
            AssertKind::MisalignedPointerDereference { .. } => ("misaligned".into(), vec![]),
            AssertKind::NullPointerDereference => ("nullptr".into(), vec![]),
            other => (format!("other:{:?}", other), vec![]),
        }
    }

    fn terminator(&self, t: &mir::Terminator<'tcx>) -> J {
        let sp = span_json(self.tcx, t.source_info.span);
        let o = match &t.kind {
            TerminatorKind::Goto { target } => J::obj().set("k", J::s("goto")).set("target", self.bb(*target)),
            TerminatorKind::SwitchInt { discr, targets } => {
                let mut ts = Vec::new();
                for (v, b) in targets.iter() {
                    ts.push(J::Arr(vec![J::s(format!("{}", v)), self.bb(b)]));
                }
                J::obj()
                    .set("k", J::s("switch"))
                    .set("discr", self.operand(discr))
                    .set("ty", J::s(ty_str(discr.ty(&self.body.local_decls, self.tcx))))
                    .set("targets", J::Arr(ts))
                    .set("otherwise", self.bb(targets.otherwise()))
            }
            TerminatorKind::Return => J::obj().set("k", J::s("return")),
            TerminatorKind::Unreachable => J::obj().set("k", J::s("unreachable")),
            TerminatorKind::UnwindResume => J::obj().set("k", J::s("resume")),
            TerminatorKind::UnwindTerminate(_) => J::obj().set("k", J::s("terminate")),
            TerminatorKind::Drop { place, target, unwind, .. } => J::obj()
                .set("k", J::s("drop"))
                .set("place", self.place(place))
                .set("target", self.bb(*target))
                .set("unwind", self.unwind(unwind)),
            TerminatorKind::Call { func, args, destination, target, unwind, fn_span, .. } => J::obj()
                .set("k", J::s("call"))
                .set("callee", self.callee(func))
                .set("func", self.operand(func))
                .set("args", J::Arr(args.iter().map(|a| self.operand(&a.node)).collect()))
                .set("dest", self.place(destination))
                .set(
                    "target",
                    match target {
                        Some(b) => self.bb(*b),
                        None => J::Null,
                    },
                )
                .set("unwind", self.unwind(unwind))
                .set("fn_span", span_json(self.tcx, *fn_span)),
            TerminatorKind::Assert { cond, expected, msg, target, unwind } => {
                let (kind, ops) = self.assert_kind(msg);
                J::obj()
                    .set("k", J::s("assert"))
                    .set("cond", self.operand(cond))
                    .set("expected", J::Bool(*expected))
                    .set("kind", J::s(kind))
                    .set("ops", J::Arr(ops))
                    .set("target", self.bb(*target))
                    .set("unwind", self.unwind(unwind))
            }
            TerminatorKind::FalseEdge { real_target, .. } => {
                J::obj().set("k", J::s("goto")).set("target", self.bb(*real_target))
            }
            TerminatorKind::FalseUnwind { real_target, .. } => {
                J::obj().set("k", J::s("goto")).set("target", self.bb(*real_target))
            }
            other => J::obj().set("k", J::s("other")).set("s", J::s(format!("{:?}", other))),
        };
        o.set("span", sp)
    }

    fn dump(&self, kind: &str, parent: Option<String>) -> J {
        let tcx = self.tcx;
        let body = self.body;
        let mut names: Vec<Option<String>> = vec![None; body.local_decls.len()];
        for vdi in body.var_debug_info.iter() {
            if let mir::VarDebugInfoContents::Place(p) = &vdi.value {
                if p.projection.is_empty() {
                    names[p.local.index()] = Some(vdi.name.as_str().to_string());
                }
            }
        }
        let mut locals = Vec::new();
        for (l, decl) in body.local_decls.iter_enumerated() {
            locals.push(
                J::obj()
                    .set("ty", ty_json(tcx, decl.ty, 0))
                    .set(
                        "name",
                        match &names[l.index()] {
                            Some(n) => J::s(n.clone()),
                            None => J::Null,
                        },
                    )
                    .set("mut", J::Bool(decl.mutability.is_mut())),
            );
        }
        let mut blocks = Vec::new();
        for (_bb, data) in body.basic_blocks.iter_enumerated() {
            let mut stmts = Vec::new();
            for st in data.statements.iter() {
                let sp = span_json(tcx, st.source_info.span);
                match &st.kind {
                    StatementKind::Assign(b) => {
                        let (p, rv) = &**b;
                        stmts.push(
                            J::obj()
                                .set("k", J::s("assign"))
                                .set("place", self.place(p))
                                .set("rv", self.rvalue(rv))
                                .set("span", sp),
                        );
                    }
                    StatementKind::SetDiscriminant { place, variant_index } => {
                        stmts.push(
                            J::obj()
                                .set("k", J::s("setdiscr"))
                                .set("place", self.place(place))
                                .set("idx", J::Int(variant_index.index() as i128))
                                .set("span", sp),
                        );
                    }
                    StatementKind::StorageLive(_)
                    | StatementKind::StorageDead(_)
                    | StatementKind::Nop
                    | StatementKind::FakeRead(..)
                    | StatementKind::PlaceMention(..)
                    | StatementKind::AscribeUserType(..)
                    | StatementKind::Coverage(..)
                    | StatementKind::ConstEvalCounter
                    | StatementKind::BackwardIncompatibleDropHint { .. } => {}
                    other => {
                        stmts.push(
                            J::obj()
                                .set("k", J::s("other"))
                                .set("s", J::s(format!("{:?}", other)))
                                .set("span", sp),
                        );
                    }
                }
            }
            let term = match &data.terminator {
                Some(t) => self.terminator(t),
                None => J::Null,
            };
            blocks.push(
                J::obj()
                    .set("cleanup", J::Bool(data.is_cleanup))
                    .set("stmts", J::Arr(stmts))
                    .set("term", term),
            );
        }
        let mut o = J::obj()
            .set("kind", J::s(kind))
            .set(
                "parent",
                match parent {
                    Some(p) => J::s(p),
                    None => J::Null,
                },
            )
            .set("span", span_json(tcx, body.span))
            .set("arg_count", J::Int(body.arg_count as i128))
            .set("locals", J::Arr(locals))
            .set("blocks", J::Arr(blocks));
        let owner = self.owner;
        if tcx.is_closure_like(owner) {
            if let Some(l) = owner.as_local() {
                let caps: Vec<J> = tcx
                    .closure_captures(l)
                    .iter()
                    .map(|c| {
                        J::obj()
                            .set("name", J::s(c.to_string(tcx)))
                            .set("kind", J::s(format!("{:?}", c.info.capture_kind)))
                            .set("ty", J::s(ty_str(c.place.ty())))
                    })
                    .collect();
                o.put("captures", J::Arr(caps));
            }
        }
        if matches!(tcx.def_kind(owner), DefKind::Fn | DefKind::AssocFn) {
            o.put("vis", J::s(format!("{:?}", tcx.visibility(owner))));
            let generics = tcx.generics_of(owner);
            o.put("generic_count", J::Int(generics.count() as i128));
        }
        o
    }
}

fn instance_kind(inst: &ty::Instance<'_>) -> String {
    let s = format!("{:?}", inst.def);
    match s.find('(') {
        Some(i) => s[..i].to_string(),
        None => s,
    }
}

fn dump_crate<'tcx>(tcx: TyCtxt<'tcx>, fmt_sites: Vec<J>) -> J {
    let mut bodies: Vec<(String, J)> = Vec::new();
    let mut n_calls = 0usize;
    let mut n_resolved = 0usize;
    for ldid in tcx.mir_keys(()).iter() {
        let did = ldid.to_def_id();
        let kind = tcx.def_kind(did);
        let kname = match kind {
            DefKind::Fn => "fn",
            DefKind::AssocFn => "assoc",
            DefKind::Closure => "closure",
            _ => continue,
        };
        let body = tcx.optimized_mir(did);
        let env = ty::TypingEnv::post_analysis(tcx, did);
        let cx = Cx { tcx, body, env, owner: did };
        for data in body.basic_blocks.iter() {
            if let Some(t) = &data.terminator {
                if let TerminatorKind::Call { func, .. } = &t.kind {
                    n_calls += 1;
                    if let ty::FnDef(cd, args) = func.ty(&body.local_decls, tcx).kind() {
                        if let Ok(Some(_)) = ty::Instance::try_resolve(tcx, env, *cd, args) {
                            n_resolved += 1;
                        }
                    }
                }
            }
        }
        let parent = if kind == DefKind::Closure {
            Some(path_str(tcx, tcx.typeck_root_def_id(did)))
        } else {
            None
        };
        let path = path_str(tcx, did);
        bodies.push((path.clone(), cx.dump(kname, parent)));
        let promoted = tcx.promoted_mir(did);
        for (i, pb) in promoted.iter_enumerated() {
            let pcx = Cx { tcx, body: pb, env, owner: did };
            bodies.push((
                format!("{}::{{promoted#{}}}", path, i.index()),
                pcx.dump("promoted", Some(path.clone())),
            ));
        }
    }

    // ADTs, statics
    let mut adts: Vec<(String, J)> = Vec::new();
    let mut statics = Vec::new();
    for ldid in tcx.hir_crate_items(()).definitions() {
        let did = ldid.to_def_id();
        match tcx.def_kind(did) {
            DefKind::Struct | DefKind::Enum => {
                let adt = tcx.adt_def(did);
                let mut variants = Vec::new();
                for v in adt.variants().iter() {
                    let fields: Vec<J> = v
                        .fields
                        .iter()
                        .map(|f| {
                            let fty = tcx.type_of(f.did).instantiate_identity().skip_norm_wip();
                            J::obj()
                                .set("name", J::s(f.name.as_str()))
                                .set("ty", ty_json(tcx, fty, 0))
                                .set("vis", J::s(format!("{:?}", f.vis)))
                        })
                        .collect();
                    variants.push(J::obj().set("name", J::s(v.name.as_str())).set("fields", J::Arr(fields)));
                }
                adts.push((
                    path_str(tcx, did),
                    J::obj()
                        .set("kind", J::s(if adt.is_enum() { "enum" } else { "struct" }))
                        .set("variants", J::Arr(variants))
                        .set("span", loc(tcx, tcx.def_span(did))),
                ));
            }
            DefKind::Static { mutability, .. } => {
                let sty = tcx.type_of(did).instantiate_identity().skip_norm_wip();
                statics.push(
                    J::obj()
                        .set("path", J::s(path_str(tcx, did)))
                        .set("ty", J::s(ty_str(sty)))
                        .set("mutable", J::Bool(mutability.is_mut()))
                        .set("span", loc(tcx, tcx.def_span(did))),
                );
            }
            _ => {}
        }
    }

    // impls
    let mut impls = Vec::new();
    for (tr, v) in tcx.all_local_trait_impls(()).iter() {
        for imp in v.iter() {
            let self_ty = tcx.type_of(imp.to_def_id()).instantiate_identity().skip_norm_wip();
            let items: Vec<J> = tcx
                .associated_item_def_ids(imp.to_def_id())
                .iter()
                .map(|d| J::s(path_str(tcx, *d)))
                .collect();
            impls.push(
                J::obj()
                    .set("trait", J::s(path_str(tcx, *tr)))
                    .set("self_ty", J::s(ty_str(self_ty)))
                    .set("items", J::Arr(items)),
            );
        }
    }

    J::obj()
        .set("crate", J::s(tcx.crate_name(LOCAL_CRATE).as_str()))
        .set("target", J::s(if tcx.entry_fn(()).is_some() { "bin" } else { "lib" }))
        .set("overflow_checks", J::Bool(tcx.sess.overflow_checks()))
        .set("n_calls", J::Int(n_calls as i128))
        .set("n_resolved", J::Int(n_resolved as i128))
        .set("adts", J::Obj(adts))
        .set("statics", J::Arr(statics))
        .set("impls", J::Arr(impls))
        .set("bodies", J::Obj(bodies))
        .set("fmt_sites", J::Arr(fmt_sites))
}
