#!/bin/sh
# Build the fact extractor offline (nightly, zero cargo dependencies).
set -e
cd "$(dirname "$0")/driver"
CARGO_NET_OFFLINE=true cargo build --release --offline
